/*
 * C04 finding 2: a data page whose definition-level stream is shorter than the
 * page's num_values is accepted, and the rows the stream does not cover are
 * delivered from UNINITIALISED heap memory: the caller receives, with a success
 * return, 2 bytes of stale heap contents per row as "definition levels" (and
 * the number of values delivered is computed from the same garbage).
 *
 * The file: one OPTIONAL INT32 column (max definition level 1). Its only page
 * says num_values = 500 and carries a definition-level section of length 0
 * and no values. Two individually plausible fields (num_values vs. the size of
 * the level payload) disagree; the reader must report an error.
 *
 * To make the effect visible without any tool, the demo first writes a marker
 * string into a heap block of the size the reader is about to request and
 * frees it; the marker then comes back out of carquet_column_read_batch().
 * Under valgrind the same run reports "Conditional jump or move depends on
 * uninitialised value(s)" inside carquet_read_data_page_v1.
 *
 * exit 0 = property holds (error reported, or only levels 0..1 returned),
 * non-zero = violated.
 */
#include <carquet/carquet.h>
#include <stdio.h>
#include <stdlib.h>
#include <string.h>
#include <unistd.h>
#include "pqbuild.h"

#define NROWS 500

static int run(const char* path, int use_buffer_api, const uint8_t* bytes, size_t nbytes) {
    carquet_error_t err = CARQUET_ERROR_INIT;
    carquet_reader_t* r = use_buffer_api ? carquet_reader_open_buffer(bytes, nbytes, NULL, &err)
                                         : carquet_reader_open(path, NULL, &err);
    if (!r) { printf("  open reported an error (%s) - fine\n", err.message); return 0; }
    carquet_column_reader_t* c = carquet_reader_get_column(r, 0, 0, &err);
    if (!c) { printf("  get_column reported an error (%s) - fine\n", err.message); carquet_reader_close(r); return 0; }

    int32_t* values = calloc(NROWS, sizeof(int32_t));
    int16_t* def = calloc(NROWS, sizeof(int16_t));

    /* Leave a recognisable pattern in a freed block of the size the reader
     * will ask for next (NROWS * sizeof(int16_t)). */
    char* secret = malloc(NROWS * sizeof(int16_t));
    for (size_t i = 0; i + 8 <= NROWS * sizeof(int16_t); i += 8) memcpy(secret + i, "PASSWORD", 8);
    free(secret);

    int64_t n = carquet_column_read_batch(c, values, NROWS, def, NULL);
    printf("  carquet_column_read_batch returned %lld\n", (long long)n);

    int bad = 0;
    if (n > 0) {
        int64_t out_of_range = 0;
        for (int64_t i = 0; i < n; i++) if (def[i] < 0 || def[i] > 1) out_of_range++;
        printf("  %lld of %lld returned definition levels are outside 0..1 (max level of the column is 1)\n",
               (long long)out_of_range, (long long)n);
        if (out_of_range) {
            char sample[33];
            memcpy(sample, (char*)def + 64, 32);
            for (int i = 0; i < 32; i++) if (sample[i] < 32 || sample[i] > 126) sample[i] = '.';
            sample[32] = 0;
            printf("  bytes 64..95 of the returned level array, as text: \"%s\"\n", sample);
            bad = 1;
        } else {
            /* All "levels" happen to be 0/1: still no level was ever decoded.
             * The stream is empty, so success with rows is wrong in itself. */
            printf("  levels look sane by luck; the page has no level data at all, success is still wrong\n");
            bad = 1;
        }
    } else {
        printf("  error / no rows reported - fine\n");
    }
    free(values); free(def);
    carquet_column_reader_free(c);
    carquet_reader_close(r);
    return bad;
}

int main(void) {
    const char* path = "/tmp/c04_finding2.parquet";

    tb_t pages; tb_init(&pages);
    uint8_t body[4] = {0, 0, 0, 0};          /* definition levels: 4-byte length prefix = 0, nothing else */
    pq_data_page(&pages, NROWS, ENC_PLAIN, body, sizeof body);
    pq_col_t col = {"x", PT_INT32, 0, REP_OPTIONAL, 0, NROWS, pages.p, pages.n, 0, 0, NULL, 0, NULL, 0};
    tb_t f; tb_init(&f);
    pq_file(&f, &col, 1, NROWS);
    if (pq_write(path, &f) != 0) { perror("write"); return 2; }

    int failures = 0;
    printf("fread path:\n");
    failures += run(path, 0, NULL, 0);
    printf("buffer path:\n");
    failures += run(path, 1, f.p, f.n);
    unlink(path);
    tb_free(&f); tb_free(&pages);
    printf(failures ? "RESULT: property violated\n" : "RESULT: ok\n");
    return failures ? 1 : 0;
}
