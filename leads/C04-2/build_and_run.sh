#!/bin/sh
# Builds the unchanged library, builds the demos, runs them (and the first one
# once more under valgrind when available).
# Exit status 0 = property holds, non-zero = violated.
HERE=$(cd "$(dirname "$0")" && pwd)
WT=$(cd "$HERE/../.." && pwd)
cd "$WT" || exit 2
cmake -G Ninja -B _build >/dev/null && cmake --build _build --target carquet >/dev/null || exit 2
cd "$HERE" || exit 2
LIBS="-lzstd -lz -lm -fopenmp -lpthread"
gcc -g -O1 -w -I"$WT/include" demo.c "$WT/_build/libcarquet.a" $LIBS -o demo_plain || exit 2
gcc -g -O1 -w -I"$WT/include" demo_indices.c "$WT/_build/libcarquet.a" $LIBS -o demo_indices || exit 2
echo "=== demo.c (definition levels), plain build ==="
./demo_plain; rc=$?
echo "exit status: $rc"
if command -v valgrind >/dev/null 2>&1; then
    echo "=== same binary under valgrind (first report only) ==="
    valgrind -q --error-exitcode=9 ./demo_plain 2>&1 | grep -A8 -m1 "uninitialised"
fi
echo "=== demo_indices.c (dictionary indices), plain build ==="
./demo_indices; rc2=$?
echo "exit status: $rc2"
[ $rc -eq 0 ] && [ $rc2 -eq 0 ]
