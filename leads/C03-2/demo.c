/*
 * C03 finding 2: after ONE transient read failure the stdio batch reader keeps
 * going with its columns out of step - every later batch silently pairs row N
 * of one column with row N+k of another one.
 *
 * The file is written with the library itself (valid, 4 REQUIRED columns that all
 * encode the row number, several pages per chunk).  It is then read three times
 * with exactly the same call sequence:
 *      loop { st = carquet_batch_reader_next(); if (st is an error) try again; ... }
 *   - stdio  (carquet_reader_open):   fread() is interposed with -Wl,--wrap=fread
 *                                     and fails exactly once (returns 0, as for EIO/EINTR)
 *   - mmap / open_buffer:             no stdio read happens at all, same calls
 *
 * Property: batches must keep "the same row alignment across columns"; the modes
 * must return the same rows.  Exit 0 = holds for every position of the single
 * fault, 1 = a successfully returned batch had misaligned columns.
 */
#include <carquet/carquet.h>
#include <stdio.h>
#include <stdlib.h>
#include <string.h>
#include <stdint.h>

/* ---- one-shot fread fault ---- */
size_t __real_fread(void*, size_t, size_t, FILE*);
static long fread_calls, fail_at = -1;
size_t __wrap_fread(void* p, size_t s, size_t n, FILE* f) {
    fread_calls++;
    if (fread_calls == fail_at) return 0;           /* transient I/O error: nothing read */
    return __real_fread(p, s, n, f);
}

#define ROWS 1000
static const char* PATH = "finding2.parquet";

static int write_file(void) {
    carquet_error_t err = CARQUET_ERROR_INIT;
    carquet_schema_t* s = carquet_schema_create(&err);
    if (!s) return -1;
    if (carquet_schema_add_column(s, "a", CARQUET_PHYSICAL_INT32, NULL, CARQUET_REPETITION_REQUIRED, 0) ||
        carquet_schema_add_column(s, "b", CARQUET_PHYSICAL_INT64, NULL, CARQUET_REPETITION_REQUIRED, 0) ||
        carquet_schema_add_column(s, "c", CARQUET_PHYSICAL_DOUBLE, NULL, CARQUET_REPETITION_REQUIRED, 0) ||
        carquet_schema_add_column(s, "d", CARQUET_PHYSICAL_INT32, NULL, CARQUET_REPETITION_REQUIRED, 0)) return -1;
    carquet_writer_options_t wo; carquet_writer_options_init(&wo);
    wo.compression = CARQUET_COMPRESSION_UNCOMPRESSED;
    wo.page_size = 256;                                   /* a page per write_batch call */
    carquet_writer_t* w = carquet_writer_create(PATH, s, &wo, &err);
    if (!w) return -1;
    for (int base = 0; base < ROWS; base += 50) {
        int32_t a[50], d[50]; int64_t b[50]; double c[50];
        for (int i = 0; i < 50; i++) { a[i] = base + i; b[i] = (int64_t)(base + i) * 1000; c[i] = (base + i) + 0.5; d[i] = -(base + i); }
        if (carquet_writer_write_batch(w, 0, a, 50, NULL, NULL) || carquet_writer_write_batch(w, 1, b, 50, NULL, NULL) ||
            carquet_writer_write_batch(w, 2, c, 50, NULL, NULL) || carquet_writer_write_batch(w, 3, d, 50, NULL, NULL)) return -1;
    }
    if (carquet_writer_close(w)) return -1;
    carquet_schema_free(s);
    return 0;
}

typedef struct { int batches, errors, misaligned; int64_t rows; char first[160]; } outcome_t;

static void read_all(carquet_reader_t* r, outcome_t* o) {
    carquet_error_t err = CARQUET_ERROR_INIT;
    memset(o, 0, sizeof *o);
    carquet_batch_reader_config_t cfg; carquet_batch_reader_config_init(&cfg);
    cfg.batch_size = 120; cfg.num_threads = 1;
    carquet_batch_reader_t* br = carquet_batch_reader_create(r, &cfg, &err);
    if (!br) { o->errors = -1; return; }
    int consecutive = 0;
    for (int guard = 0; guard < 1000; guard++) {
        carquet_row_batch_t* b = NULL;
        carquet_status_t st = carquet_batch_reader_next(br, &b);
        if (st == CARQUET_ERROR_END_OF_DATA) break;
        if (st != CARQUET_OK || !b) { o->errors++; if (++consecutive > 3) break; continue; }   /* transient? try again */
        consecutive = 0;
        o->batches++;
        const void* d[4]; const uint8_t* nb; int64_t nv[4];
        for (int j = 0; j < 4; j++) if (carquet_row_batch_column(b, j, &d[j], &nb, &nv[j]) != CARQUET_OK) nv[j] = -1;
        int64_t rows = carquet_row_batch_num_rows(b);
        o->rows += rows;
        for (int64_t i = 0; i < rows; i++) {
            int32_t a, dd; int64_t bb; double c;
            memcpy(&a, (const uint8_t*)d[0] + 4 * i, 4); memcpy(&bb, (const uint8_t*)d[1] + 8 * i, 8);
            memcpy(&c, (const uint8_t*)d[2] + 8 * i, 8); memcpy(&dd, (const uint8_t*)d[3] + 4 * i, 4);
            if (nv[0] != rows || nv[1] != rows || nv[2] != rows || nv[3] != rows ||
                bb != (int64_t)a * 1000 || c != a + 0.5 || dd != -a) {
                if (!o->misaligned)
                    snprintf(o->first, sizeof o->first, "batch #%d row %lld: a=%d  b=%lld (row %lld)  c=%g (row %g)  d=%d (row %d)",
                             o->batches, (long long)i, a, (long long)bb, (long long)(bb / 1000), c, c - 0.5, dd, -dd);
                o->misaligned++;
            }
        }
        carquet_row_batch_free(b);
    }
    carquet_batch_reader_free(br);
}

int main(void) {
    if (write_file() != 0) { printf("could not write the test file\n"); return 2; }
    FILE* f = fopen(PATH, "rb"); fseek(f, 0, SEEK_END); long sz = ftell(f); fseek(f, 0, SEEK_SET);
    uint8_t* bytes = malloc((size_t)sz); if (__real_fread(bytes, 1, (size_t)sz, f) != (size_t)sz) return 2; fclose(f);

    carquet_error_t err = CARQUET_ERROR_INIT;
    carquet_reader_options_t ro; outcome_t o;
    int violated = 0;

    /* reference runs: mmap and buffer (no stdio reads at all), stdio without a fault */
    static const char* mname[] = { "fread (no fault)", "mmap            ", "buffer          " };
    for (int mode = 0; mode < 3; mode++) {
        carquet_reader_options_init(&ro); ro.use_mmap = (mode == 1);
        carquet_reader_t* r = mode == 2 ? carquet_reader_open_buffer(bytes, (size_t)sz, &ro, &err) : carquet_reader_open(PATH, &ro, &err);
        if (!r) { printf("open failed\n"); return 2; }
        fread_calls = 0; fail_at = -1;
        read_all(r, &o);
        printf("%s: %d batches, %lld rows, %d failed calls, %d misaligned rows  (%ld fread calls)\n",
               mname[mode], o.batches, (long long)o.rows, o.errors, o.misaligned, fread_calls);
        if (o.misaligned || o.errors || o.rows != ROWS) violated = 1;
        carquet_reader_close(r);
        if (mode == 0) { /* remember how many freads a clean stdio pass needs */ }
    }

    /* stdio with exactly one failing fread, at every possible position */
    carquet_reader_options_init(&ro);
    carquet_reader_t* r0 = carquet_reader_open(PATH, &ro, &err); if (!r0) return 2;
    fread_calls = 0; fail_at = -1; read_all(r0, &o); long total = fread_calls; carquet_reader_close(r0);

    int bad_positions = 0, shown = 0;
    for (long k = 1; k <= total; k++) {
        carquet_reader_t* r = carquet_reader_open(PATH, &ro, &err); if (!r) return 2;
        fread_calls = 0; fail_at = k;
        read_all(r, &o);
        fail_at = -1;
        carquet_reader_close(r);
        if (o.misaligned) {
            bad_positions++;
            if (shown < 4) {
                printf("fread with fread() call #%ld failing once: %d failed next() call(s), then %d batches / %lld rows returned with CARQUET_OK, %d rows MISALIGNED\n    first: %s\n",
                       k, o.errors, o.batches, (long long)o.rows, o.misaligned, o.first);
                shown++;
            }
        }
    }
    printf("single transient fread failure: %d of %ld fault positions lead to batches whose columns are out of step\n", bad_positions, total);
    if (bad_positions) violated = 1;
    free(bytes); remove(PATH);
    printf(violated ? "RESULT: property violated\n" : "RESULT: property holds\n");
    return violated;
}
