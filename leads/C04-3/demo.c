/*
 * C04 finding 3: BYTE_ARRAY values handed out by the batch reader point into
 * page/dictionary buffers owned by the batch reader's internal column readers.
 * Those buffers are freed by the NEXT carquet_batch_reader_next() call (page
 * change, row-group change) or by carquet_batch_reader_free(), while the batch
 * that references them is still alive. carquet.h promises for
 * carquet_row_batch_column(): "The pointers remain valid until the batch is
 * freed."
 *
 * The file is written by carquet's own writer with default options: one
 * REQUIRED BYTE_ARRAY column, two row groups of four short strings. Nothing is
 * malformed. The call sequence is valid: fetch batch 1, fetch batch 2, look at
 * batch 1, free both.
 *
 * Without a sanitizer the strings of batch 1 have changed (the allocator has
 * already written into the freed block); with AddressSanitizer the first access
 * is reported as heap-use-after-free, freed in carquet_column_reader_free.
 *
 * exit 0 = property holds, non-zero = violated.
 */
#include <carquet/carquet.h>
#include <stdio.h>
#include <stdlib.h>
#include <string.h>
#include <unistd.h>

#define ROWS 4

static int write_file(const char* path) {
    carquet_error_t err = CARQUET_ERROR_INIT;
    carquet_schema_t* s = carquet_schema_create(&err);
    if (!s) return -1;
    if (carquet_schema_add_column(s, "name", CARQUET_PHYSICAL_BYTE_ARRAY, NULL,
                                  CARQUET_REPETITION_REQUIRED, 0) != CARQUET_OK) return -1;
    carquet_writer_t* w = carquet_writer_create(path, s, NULL, &err);   /* default options */
    if (!w) return -1;
    char text[ROWS][32];
    for (int rg = 0; rg < 2; rg++) {
        carquet_byte_array_t ba[ROWS];
        for (int i = 0; i < ROWS; i++) {
            snprintf(text[i], sizeof text[i], "row-group-%d-string-%d", rg, i);
            ba[i].data = (uint8_t*)text[i];
            ba[i].length = (int32_t)strlen(text[i]);
        }
        if (carquet_writer_write_batch(w, 0, ba, ROWS, NULL, NULL) != CARQUET_OK) return -1;
        if (rg == 0 && carquet_writer_new_row_group(w) != CARQUET_OK) return -1;
    }
    if (carquet_writer_close(w) != CARQUET_OK) return -1;
    carquet_schema_free(s);
    return 0;
}

int main(void) {
    const char* path = "/tmp/c04_finding3.parquet";
    if (write_file(path) != 0) { fprintf(stderr, "unexpected: cannot write the file\n"); return 2; }

    carquet_error_t err = CARQUET_ERROR_INIT;
    carquet_reader_t* r = carquet_reader_open(path, NULL, &err);
    if (!r) { fprintf(stderr, "unexpected: open failed: %s\n", err.message); return 2; }
    carquet_batch_reader_t* br = carquet_batch_reader_create(r, NULL, &err);
    if (!br) { fprintf(stderr, "unexpected: batch reader: %s\n", err.message); return 2; }

    carquet_row_batch_t* b1 = NULL;
    carquet_row_batch_t* b2 = NULL;
    if (carquet_batch_reader_next(br, &b1) != CARQUET_OK || !b1) { fprintf(stderr, "unexpected: no batch 1\n"); return 2; }

    const void* data; const uint8_t* nulls; int64_t count;
    if (carquet_row_batch_column(b1, 0, &data, &nulls, &count) != CARQUET_OK || count != ROWS) return 2;
    const carquet_byte_array_t* ba = data;

    /* What batch 1 contains right after it was returned */
    char before[ROWS][64];
    for (int i = 0; i < ROWS; i++) {
        memset(before[i], 0, sizeof before[i]);
        memcpy(before[i], ba[i].data, (size_t)ba[i].length);
    }

    /* Fetch the next batch; batch 1 has NOT been freed. */
    if (carquet_batch_reader_next(br, &b2) != CARQUET_OK || !b2) { fprintf(stderr, "unexpected: no batch 2\n"); return 2; }

    /* An application doing ordinary things with the heap in between */
    char* other[8];
    for (int i = 0; i < 8; i++) { other[i] = malloc(100); memset(other[i], '#', 100); }

    /* Look at batch 1 again (AddressSanitizer stops here: heap-use-after-free) */
    int changed = 0;
    for (int i = 0; i < ROWS; i++) {
        char now[64];
        memset(now, 0, sizeof now);
        memcpy(now, ba[i].data, (size_t)ba[i].length);
        for (int k = 0; k < ba[i].length; k++) if (now[k] < 32 || now[k] > 126) now[k] = '?';
        int same = memcmp(before[i], ba[i].data, (size_t)ba[i].length) == 0;
        printf("batch 1, value %d: was \"%s\", is now \"%s\"%s\n", i, before[i], now, same ? "" : "   <-- CHANGED");
        if (!same) changed++;
    }

    for (int i = 0; i < 8; i++) free(other[i]);
    carquet_row_batch_free(b1);
    carquet_row_batch_free(b2);
    carquet_batch_reader_free(br);
    carquet_reader_close(r);
    unlink(path);

    if (changed) {
        printf("VIOLATION: %d value(s) of a live batch changed after carquet_batch_reader_next(): "
               "they point into memory the library has freed\n", changed);
        printf("RESULT: property violated\n");
        return 1;
    }
    printf("RESULT: ok (values unchanged; run the ASan build for the use-after-free report)\n");
    return 0;
}
