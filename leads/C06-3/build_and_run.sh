#!/bin/sh
# Builds the library in the worktree as it is (with AddressSanitizer so that the
# access to freed memory is reported instead of silently reading stale bytes),
# builds the demonstration, runs it.
# Exit status 0 = property holds, non-zero (sanitizer abort) = violated.
HERE=$(cd "$(dirname "$0")" && pwd)
WT=$(cd "$HERE/../.." && pwd)
(cd "$WT" && cmake -G Ninja -B _build_asan -DCMAKE_C_FLAGS="-fsanitize=address,undefined -g -O1" \
     -DCMAKE_EXE_LINKER_FLAGS="-fsanitize=address,undefined" >/dev/null && cmake --build _build_asan >/dev/null) || exit 2
cd "$HERE" || exit 2
cc -O1 -g -fsanitize=address,undefined -I"$WT/include" demo.c "$WT/_build_asan/libcarquet.a" -o demo -lzstd -lz -lm -fopenmp -lpthread || exit 2
OMP_NUM_THREADS=2 ./demo
rc=$?
echo "demo exit status: $rc"
exit $rc
