/* Two row groups, one required BYTE_ARRAY column "s" (PLAIN, UNCOMPRESSED).
 * carquet.h: "Batch data pointers are valid until carquet_row_batch_free() is called"
 * and, for carquet_row_batch_column(): "The pointers remain valid until the batch is freed."
 * So a caller may hold batch 0 while it fetches batch 1 and still read the strings of batch 0. */
#include <carquet/carquet.h>
#include "pq.h"
#include <stdio.h>

static const char* rows[2][3] = {{"alpha", "bravo", "charlie"}, {"delta", "echo", "foxtrot"}};

int main(void) {
    setvbuf(stdout, NULL, _IONBF, 0);
    if (carquet_init() != CARQUET_OK) return 2;
    pq_buf f = {0}; pq_put(&f, "PAR1", 4);
    pq_chunk c[2]; memset(c, 0, sizeof c); pq_rowgroup rg[2];
    for (int g = 0; g < 2; g++) {
        pq_buf body = {0};
        for (int i = 0; i < 3; i++) { pq_u32(&body, (uint32_t)strlen(rows[g][i])); pq_put(&body, rows[g][i], strlen(rows[g][i])); }
        c[g].type = 6; c[g].path[0] = "s"; c[g].pathlen = 1; c[g].num_values = 3; c[g].encodings[0] = 0; c[g].encodings[1] = 3; c[g].nenc = 2;
        c[g].first_page_off = c[g].data_page_off = (int64_t)f.n; pq_data_page(&f, 3, 0, &body); c[g].size = (int64_t)f.n - c[g].first_page_off; free(body.p);
        rg[g].num_rows = 3; rg[g].chunks = &c[g]; rg[g].nchunks = 1;
    }
    pq_elem el[2] = {{"schema", -1, -1, 0, 1}, {"s", 0, 6, 0, 0}};
    pq_finish(&f, el, 2, rg, 2);
    if (pq_save(&f, "strings.parquet")) return 2;
    free(f.p);

    carquet_error_t err = CARQUET_ERROR_INIT;
    carquet_reader_t* r = carquet_reader_open("strings.parquet", NULL, &err);   /* default options: fread path */
    if (!r) { printf("open failed: %s\n", err.message); return 2; }
    carquet_batch_reader_t* br = carquet_batch_reader_create(r, NULL, &err);
    if (!br) return 2;

    carquet_row_batch_t* b0 = NULL; carquet_row_batch_t* b1 = NULL;
    if (carquet_batch_reader_next(br, &b0) != CARQUET_OK || !b0) { printf("no batch 0\n"); return 2; }
    if (carquet_batch_reader_next(br, &b1) != CARQUET_OK || !b1) { printf("no batch 1\n"); return 2; }

    int bad = 0;
    carquet_row_batch_t* bs[2] = {b0, b1};
    for (int g = 0; g < 2; g++) {
        const void* data; const uint8_t* nulls; int64_t n;
        if (carquet_row_batch_column(bs[g], 0, &data, &nulls, &n) != CARQUET_OK || n != 3) { printf("batch %d: bad column\n", g); return 1; }
        const carquet_byte_array_t* s = (const carquet_byte_array_t*)data;
        for (int i = 0; i < 3; i++) {
            /* batch 0 has NOT been freed yet: its strings must still be readable */
            int ok = s[i].length == (int32_t)strlen(rows[g][i]) && memcmp(s[i].data, rows[g][i], (size_t)s[i].length) == 0;
            printf("batch %d row %d: \"%.*s\" %s\n", g, i, s[i].length, (const char*)s[i].data, ok ? "ok" : "WRONG");
            bad |= !ok;
        }
    }
    carquet_row_batch_free(b0); carquet_row_batch_free(b1);
    carquet_batch_reader_free(br); carquet_reader_close(r);
    printf(bad ? "FAIL\n" : "OK\n");
    return bad;
}
