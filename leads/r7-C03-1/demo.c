/*
 * C03 finding 1: a REQUIRED FIXED_LEN_BYTE_ARRAY column whose type_length is
 * above 16 MiB is read differently through the three open paths by the batch
 * reader: stdio refuses the (valid) file with a decode error, while the
 * mmap / buffer paths take the zero-copy shortcut and hand out the FIRST row
 * of the page again for every later batch.
 *
 * The file is hand-built and valid: one row group, one REQUIRED
 * FIXED_LEN_BYTE_ARRAY(16 MiB + 1) column, one uncompressed PLAIN data page
 * v1 with 3 rows. Row i consists of the byte 'A'+i repeated. (The format puts
 * no upper limit on type_length; any writer produces this for such a schema.)
 *
 * Exit 0: all three paths return rows A, B, C. Non-zero otherwise.
 */
#include "pqgen.h"
#include <carquet/carquet.h>
#include <unistd.h>

#define FLEN (16 * 1024 * 1024 + 1)
#define NROWS 3

static int read_all(const char* label, carquet_reader_t* rd, char out[NROWS + 1], int* status_out) {
    memset(out, '?', NROWS); out[NROWS] = 0;
    carquet_batch_reader_config_t cfg; carquet_batch_reader_config_init(&cfg);
    cfg.batch_size = 1;               /* one row per batch */
    carquet_error_t err = CARQUET_ERROR_INIT;
    carquet_batch_reader_t* br = carquet_batch_reader_create(rd, &cfg, &err);
    if (!br) { printf("%-6s: batch reader create failed: %s\n", label, err.message); return -1; }
    int row = 0; carquet_status_t st = CARQUET_OK;
    for (;;) {
        carquet_row_batch_t* b = NULL;
        st = carquet_batch_reader_next(br, &b);
        if (st != CARQUET_OK || !b) break;
        const void* data; const uint8_t* nb; int64_t nv;
        if (carquet_row_batch_column(b, 0, &data, &nb, &nv) == CARQUET_OK && nv == 1 && row < NROWS) {
            const uint8_t* p = data;
            /* the whole value must be one repeated byte */
            char c = (char)p[0];
            for (size_t i = 0; i < FLEN; i += 4099) if (p[i] != p[0]) c = '!';
            if (p[FLEN - 1] != p[0]) c = '!';
            out[row] = c;
        }
        row++;
        carquet_row_batch_free(b);
    }
    carquet_batch_reader_free(br);
    *status_out = st;
    printf("%-6s: batches=%d rows seen=\"%s\" final status=%d (%s)\n", label, row, out, st, carquet_status_string(st));
    return row;
}

int main(void) {
    /* ---- build the file ---- */
    buf_t f = {0};
    b_put(&f, "PAR1", 4);
    size_t body_len = (size_t)FLEN * NROWS;
    uint8_t* body = malloc(body_len);
    for (int r = 0; r < NROWS; r++) memset(body + (size_t)r * FLEN, 'A' + r, FLEN);
    pqchunk_t ck; memset(&ck, 0, sizeof ck);
    ck.num_values = NROWS; ck.data_page_offset = (int64_t)f.n;
    pghdr_t h = {0, NROWS, ENC_PLAIN, 1 /* crc */, 0, 0};
    write_page(&f, &h, body, body_len);
    ck.total_size = (int64_t)f.n - 4;
    free(body);
    pqcol_t col = {"v", T_FLBA, FLEN, 0 /* REQUIRED */};
    int64_t rows = NROWS;
    write_footer(&f, &col, 1, 1, &rows, &ck);

    char path[128]; snprintf(path, sizeof path, "/tmp/c03_f1_%d.parquet", (int)getpid());
    FILE* fp = fopen(path, "wb"); if (!fp) { perror("fopen"); return 2; }
    fwrite(f.p, 1, f.n, fp); fclose(fp);

    /* ---- the column reader reads the column fine on every path (sanity) ---- */
    int bad = 0;
    char seen[3][NROWS + 1]; int st[3]; const char* nm[3] = {"fread", "mmap", "buffer"};
    for (int k = 0; k < 3; k++) {
        carquet_reader_options_t o; carquet_reader_options_init(&o); o.use_mmap = (k == 1);
        carquet_error_t err = CARQUET_ERROR_INIT;
        carquet_reader_t* rd = k == 2 ? carquet_reader_open_buffer(f.p, f.n, &o, &err) : carquet_reader_open(path, &o, &err);
        if (!rd) { printf("%s: open failed: %s\n", nm[k], err.message); bad = 1; continue; }

        carquet_column_reader_t* cr = carquet_reader_get_column(rd, 0, 0, &err);
        uint8_t* one = malloc(FLEN);
        char viacol[NROWS + 1] = "???";
        for (int r = 0; cr && r < NROWS; r++) if (carquet_column_read_batch(cr, one, 1, NULL, NULL) == 1) viacol[r] = (char)one[0];
        free(one); carquet_column_reader_free(cr);
        printf("%-6s: column reader rows=\"%s\"\n", nm[k], viacol);

        read_all(nm[k], rd, seen[k], &st[k]);
        if (strcmp(seen[k], "ABC") != 0) bad = 1;
        carquet_reader_close(rd);
    }
    if (strcmp(seen[0], seen[1]) || strcmp(seen[0], seen[2]) || st[0] != st[1] || st[0] != st[2]) {
        printf("VIOLATION: the three open paths disagree on the same bytes\n");
        bad = 1;
    }
    unlink(path); free(f.p);
    printf(bad ? "RESULT: property violated\n" : "RESULT: ok\n");
    return bad;
}
