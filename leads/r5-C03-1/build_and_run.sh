#!/bin/sh
# Builds the library as it is, builds the demo twice (plain and with UBSan), runs both.
set -u
WT=/tmp/wt5/C03
HERE=$WT/_finding/1
export OMP_NUM_THREADS=2 OMP_WAIT_POLICY=passive
cd $WT && cmake -G Ninja -B _build >/dev/null && cmake --build _build >/dev/null || exit 99
cc -O1 -g -I$WT/include $HERE/demo.c $WT/_build/libcarquet.a -lzstd -lz -lm -fopenmp -lpthread -o $HERE/demo || exit 99
echo "== plain build"
$HERE/demo; rc=$?
echo "exit code $rc"
echo "== same demo with -fsanitize=undefined (alignment) on the demo only"
cc -O1 -g -fsanitize=alignment -fno-sanitize-recover=alignment -I$WT/include $HERE/demo.c $WT/_build/libcarquet.a -lzstd -lz -lm -fopenmp -lpthread -o $HERE/demo_ubsan || exit 99
$HERE/demo_ubsan; rc2=$?
echo "exit code $rc2"
[ $rc -eq 0 ] && [ $rc2 -eq 0 ]
