/*
 * C03 finding 1: the batch reader hands out misaligned value pointers when the
 * reader is memory-mapped (or opened from a buffer); with stdio the same call
 * returns malloc'd, aligned memory.
 *
 * The documented way to use carquet_row_batch_column() is
 *     const int64_t* ids = (const int64_t*)data;   ids[i] ...
 * (README.md "Access column data", tests/test_mmap.c, benchmark/).  That is only
 * defined behaviour when `data` is aligned for the value type.
 *
 * exit 0: every returned pointer is aligned for its type in all three modes
 * exit 1: a mode returned a misaligned pointer (and, when built with
 *         -fsanitize=undefined, the typed access below is reported by UBSan)
 */
#include <carquet/carquet.h>
#include <stdio.h>
#include <stdlib.h>
#include <stdint.h>
#include <string.h>

static const char* PATH = "/tmp/wt5/C03/_finding/1/demo1.parquet";
#define ROWS 1000

static int write_file(void) {
    carquet_error_t err = CARQUET_ERROR_INIT;
    carquet_schema_t* s = carquet_schema_create(&err);
    if (!s) return 1;
    if (carquet_schema_add_column(s, "id", CARQUET_PHYSICAL_INT64, NULL, CARQUET_REPETITION_REQUIRED, 0) != CARQUET_OK) return 1;
    if (carquet_schema_add_column(s, "value", CARQUET_PHYSICAL_DOUBLE, NULL, CARQUET_REPETITION_REQUIRED, 0) != CARQUET_OK) return 1;
    if (carquet_schema_add_column(s, "n", CARQUET_PHYSICAL_INT32, NULL, CARQUET_REPETITION_REQUIRED, 0) != CARQUET_OK) return 1;
    carquet_writer_options_t o; carquet_writer_options_init(&o);
    o.compression = CARQUET_COMPRESSION_UNCOMPRESSED;
    carquet_writer_t* w = carquet_writer_create(PATH, s, &o, &err);
    if (!w) return 1;
    static int64_t ids[ROWS]; static double vals[ROWS]; static int32_t ns[ROWS];
    for (int i = 0; i < ROWS; i++) { ids[i] = i * 100LL; vals[i] = i * 0.5; ns[i] = i; }
    if (carquet_writer_write_batch(w, 0, ids, ROWS, NULL, NULL) != CARQUET_OK) return 1;
    if (carquet_writer_write_batch(w, 1, vals, ROWS, NULL, NULL) != CARQUET_OK) return 1;
    if (carquet_writer_write_batch(w, 2, ns, ROWS, NULL, NULL) != CARQUET_OK) return 1;
    if (carquet_writer_close(w) != CARQUET_OK) return 1;
    carquet_schema_free(s);
    return 0;
}

/* the access pattern of the README; UBSan reports it when data is misaligned */
static int64_t sum_i64(const void* data, int64_t n) { const int64_t* p = (const int64_t*)data; int64_t s = 0; for (int64_t i = 0; i < n; i++) s += p[i]; return s; }
static double  sum_f64(const void* data, int64_t n) { const double* p = (const double*)data; double s = 0; for (int64_t i = 0; i < n; i++) s += p[i]; return s; }
static int64_t sum_i32(const void* data, int64_t n) { const int32_t* p = (const int32_t*)data; int64_t s = 0; for (int64_t i = 0; i < n; i++) s += p[i]; return s; }

static int run_mode(int mode) {
    static const char* names[] = {"stdio", "mmap", "buffer"};
    carquet_error_t err = CARQUET_ERROR_INIT;
    carquet_reader_options_t o; carquet_reader_options_init(&o);
    void* filebuf = NULL; carquet_reader_t* rd;
    if (mode == 2) {
        FILE* f = fopen(PATH, "rb"); fseek(f, 0, SEEK_END); long sz = ftell(f); fseek(f, 0, SEEK_SET);
        filebuf = malloc(sz);                       /* malloc: aligned for any type */
        if (fread(filebuf, 1, sz, f) != (size_t)sz) return 2;
        fclose(f);
        rd = carquet_reader_open_buffer(filebuf, sz, &o, &err);
    } else {
        o.use_mmap = (mode == 1);
        rd = carquet_reader_open(PATH, &o, &err);
    }
    if (!rd) { printf("%s: open failed: %s\n", names[mode], err.message); return 2; }

    carquet_batch_reader_config_t cfg; carquet_batch_reader_config_init(&cfg);
    cfg.batch_size = 100;
    carquet_batch_reader_t* br = carquet_batch_reader_create(rd, &cfg, &err);
    if (!br) return 2;

    int misaligned = 0; int64_t rows = 0, s0 = 0, s2 = 0; double s1 = 0;
    carquet_row_batch_t* b = NULL;
    while (carquet_batch_reader_next(br, &b) == CARQUET_OK && b) {
        const void* data; const uint8_t* nulls; int64_t n;
        size_t need[3] = {_Alignof(int64_t), _Alignof(double), _Alignof(int32_t)};
        for (int c = 0; c < 3; c++) {
            if (carquet_row_batch_column(b, c, &data, &nulls, &n) != CARQUET_OK) return 2;
            if ((uintptr_t)data % need[c] != 0) {
                if (!misaligned) printf("%s: batch at row %lld column %d: data=%p is not %zu-byte aligned\n",
                                        names[mode], (long long)rows, c, data, need[c]);
                misaligned++;
            }
            if (c == 0) s0 += sum_i64(data, n);
            if (c == 1) s1 += sum_f64(data, n);
            if (c == 2) s2 += sum_i32(data, n);
        }
        rows += carquet_row_batch_num_rows(b);
        carquet_row_batch_free(b); b = NULL;
    }
    carquet_batch_reader_free(br);
    carquet_reader_close(rd);
    free(filebuf);
    printf("%s: rows=%lld sum(id)=%lld sum(value)=%.1f sum(n)=%lld misaligned column pointers=%d\n",
           names[mode], (long long)rows, (long long)s0, s1, (long long)s2, misaligned);
    return misaligned ? 1 : 0;
}

int main(void) {
    if (write_file()) { printf("could not write the test file\n"); return 2; }
    int rc = 0;
    for (int mode = 0; mode < 3; mode++) { int r = run_mode(mode); if (r > rc) rc = r; }
    if (rc == 1) printf("FAIL: the same file yields typed-access-safe pointers with stdio but misaligned ones with mmap/buffer\n");
    else if (rc == 0) printf("OK\n");
    return rc;
}
